#!/venv/bin/python
"""Regenerates /verif/MANIFEST.json from the table below and validates it against the schema.
A property is claimed iff its monitor module exists under vmon/monitors/."""
import json
import os
import subprocess
import sys

HERE = os.path.dirname(os.path.dirname(os.path.abspath(__file__)))

CHECKS = {
    'C01': dict(
        category='exploration', design_ref='DESIGN.md §3 C01, §8',
        technique='runtime monitor: independent strict RFC 8259 re-decoding + response-shape oracle over generated request texts; ambient contracts over the repository test-suite',
        text='Request texts (full member-alphabet product of request objects, typed calls over 34 probe methods incl. suspending, '
             'suspending-then-failing, coroutine-returning (native and non-native coroutine objects), pydantic-constrained and '
             'underscore-named ones, methods raising library error classes or errors with their own constructor, 36 exception kinds '
             'incl. library, live-argument, message-less and unprintable exceptions, by-name arguments wrapped in an array, '
             'batches over 17 element kinds exhaustive to length 3 and sampled to 8, duplicate / double-duplicate ids, prefixes and '
             'single-character edits of valid documents, random texts, 1..20000-digit integers, floats, nesting 1..64) are dispatched '
             'on the real sync / async dispatchers under 4 batch-size limits and 3 extra flavours (plain functions on the async '
             'dispatcher, inert middleware + handler tables); every return value is judged by a strict JSON decoder and a structural '
             'checker that share no code with pjrpc. The repository test-suite additionally runs under icontract / wrapper contracts. '
             'Extra dispatcher flavours: plain functions on the async dispatcher, inert hooks with unconventional parameter names, pjrpc loggers enabled for DEBUG. '
             'Also (round 9): unregistered names in the rpc. namespace / padded with white space, a bound on a type pydantic converts before checking (timedelta), a view method with a parameter named context. '
             'Round 10: AsyncDispatcher(concurrent_batch=False) as a flavour; methods under PydanticValidator(coerce=False), a name registered inside rpc., a $id/$ref schema with a slow user format check.',
        note='trusted: vmon/strictjson.py, vmon/models/wire.py; probe methods return JSON-encodable values; lenient-parser tokens judged for totality only'),
    'C02': dict(
        category='exploration', design_ref='DESIGN.md §3 C02, §8',
        technique='runtime monitor: executable JSON-RPC server model + metamorphic batch=elements relation over dispatch()',
        text='Singles over all id typings and batches over 17 element kinds (exhaustive to length 3, sampled to 6; duplicate ids at '
             'every pair, two different duplicated ids, "1" next to 1, size limits at and around the length) on both dispatchers and '
             'the extra flavours; responses (count, order, ids with JSON type, results) and the multiset of probe executions are '
             'compared with a pure-Python reference model, and every accepted batch is re-run element by element.',
        note='trusted: vmon/models/server.py, vmon/strictjson.py; explicit "id": null and max_batch_size=0 are judged for atomicity only'),
    'C03': dict(
        category='exploration', design_ref='DESIGN.md §3 C03, §8',
        technique='runtime monitor: failure-table reference model + leak-marker search on the raw response text',
        text='Every failure kind (not JSON, invalid request / batch, unknown method, unbindable or schema-violating params, protocol '
             'errors over 14 codes x 4 messages x 10 data shapes incl. absent vs null, 29 exception kinds with marker strings) is '
             'driven as call, notification and batch element at every position on both dispatchers and the extra flavours and '
             'compared with the failure table; exception type names, markers and traceback text are searched in the raw response.',
        note='trusted: vmon/models/server.py; data / message of library-generated errors are not judged'),
    'C04': dict(
        category='exploration', design_ref='DESIGN.md §3 C04, §8',
        technique='runtime monitor: generated programs, Python twin call as binding oracle, context identity check',
        text='All signatures of <= 4 (thorough: + 2500 five-parameter) parameters over the five parameter kinds, defaults, context '
             'placement and passing mode, as def / async def / plain-on-async / view instance-, class- and static-method, are generated '
             'as source, registered on the real dispatchers and driven with all positional lists 0..5 and all named subsets (incl. an '
             'unknown name and the context name); a twin with the same signature called directly decides what must bind. Names collide '
             'textually with the context name, a view\'s context name equals a parameter name, one function object is registered with '
             'and without a context, all generated functions share one __qualname__. '
             'Also: names the library uses for its own parameters, an async def behind a functools.wraps decorator, the same programs under the pydantic validator (Union[int, str] = None defaults) and under a validator built with exclude_param, by-name arguments wrapped in an array. '
             'Round 8: positional values spelled like parameter names, a JSON-schema validator that constrains nothing. '
             'Also: the pydantic validator built with extra=ignore / allow.',
        note='trusted: CPython call semantics (the twin), the admissibility rule of DESIGN.md §3 C04; known findings D4, D18'),
    'C05': dict(
        category='exploration', design_ref='DESIGN.md §3 C05, §8',
        technique='runtime monitor: round-trip oracle (to_json -> text -> strict decode -> from_json -> to_json) with field-wise comparison',
        text='Generated requests, responses, errors, batches and batch-level errors (nested / empty / edge JSON values, all id typings, '
             'registered codes incl. a class with class-level data, unregistered codes incl. 0 and the reserved range, empty messages, '
             'three base classes in both orders of use) go through both encoders and back; wire-form exactness is judged on an '
             'independently decoded text, exception classes by type identity; batches also through serialise/append/extend histories. '
             'Also: method names not in a Unicode normal form, params member names that are no identifiers, error classes created through a derived metaclass, a code declared by two classes, null-id elements in batch responses, and the same batches through the real clients. '
             'Also: batches of n calls answered with a batch-level error through the real client.',
        note='trusted: vmon/strictjson.py, vmon/gen/values.py; -0.0 vs 0.0 not distinguished'),
    'C06': dict(
        category='exploration', design_ref='DESIGN.md §3 C06, §8',
        technique='runtime monitor: exhaustive member-alphabet product through from_json + list-model of append/extend histories + icontract batch invariants',
        text='The full 16^4 product of request objects, 16^3 error objects, 16^3x18 response objects, non-object inputs, all batch arrays of '
             '<= 3 elements over 12 shapes plus 4/5-element double duplicates, batch-level error objects, and all append/extend histories '
             'of <= 3 operations over 6 ids (4-5 sampled, mixed-type double duplicates) are executed; exception type and accepted/refused '
             'verdict are compared with validity predicates, batch contents with a list model after every operation; one shard runs under '
             'icontract invariants on the real batch classes. '
             'Registered error codes (library and user) are crossed with absent / ill-typed messages. '
             'Payloads nested 100..900 levels deep stay opaque to deserialisation. '
             'Also: error objects deserialised through the library own error classes (error_cls=ServerError, MethodNotFoundError, ...).',
        note='trusted: validity predicates in vmon/monitors/c06.py; float ids and rejection of valid values are not judged'),
    'C07': dict(
        category='exploration', design_ref='DESIGN.md §3 C07, §8',
        technique='runtime monitor: loop-back client->dispatcher execution compared with direct twin invocation, wire-document oracle',
        text='Call programs of 1..4 calls / notifications over the probe methods (incl. a parameter named id, suspending coroutines with '
             'decreasing delays) run in all ten notations on the real sync / async clients whose transport is the real sync / async '
             'dispatcher, under four id generators, strict on/off and two error base classes; the single wire document, the value / '
             'exception reaching the caller, server-side executions and equality across notations are judged. '
             'Round 8: a client base class overriding get_error_cls, a BatchRequest extended between two sends. '
             'Also: a server-side application encoder whose results only it can write; LoggingTracer attached to part of the clients.',
        note='trusted: twin table in vmon/models/server.py, vmon/models/wire.py; known finding D7 (uuid id generator)'),
    'C08': dict(
        category='fault_enumeration', design_ref='DESIGN.md §3 C08, §8',
        technique='runtime monitor: scripted-transport fault enumeration judged by an id-matching reference model',
        text='For batches of 1..4 calls (+notifications; ids from 1, from 0, strings incl. "") every permutation of the correct response '
             'array x success/error mixes x {omit, duplicate, unasked id, retyped / boolean / fractional / null id, extra null-id element}, '
             'batch-level errors and garbage bodies are returned by a scripted transport to the real clients (strict on/off, send and '
             'call, also re-sending the same request object); accept / IdentityError / DeserializationError, request linking, call-order '
             'attribution of unique tokens and survival of null-id errors are compared with the model. '
             'Also: call ids of mixed JSON types, two missing and two stray answers. '
             'Also: error objects lacking a required member under codes that have an error class.',
        note='trusted: vmon/models/client_match.py; non-JSON bodies and null-id elements combined with missing ids are not judged'),
    'C09': dict(
        category='fault_enumeration', design_ref='DESIGN.md §3 C09, §8',
        technique='runtime monitor: scripted per-attempt outcomes + recording sleep shims (virtual clock) vs retry/backoff reference model',
        text='Sessions of 1..3 requests (single / batch / notification) on one real sync or async client run through a transport scripted '
             'with every outcome sequence of length n+2 for n in 0..2 (thorough 3; 3-4 sampled) over 6 outcome kinds, under a grid of '
             'backoff families / parameters (caps below the first delay, factor 1 and < 1, non-zero, negative and fresh-per-draw jitter, attempts 0; entry points send / call / client() / proxy / notify / batch.call()), 4 codes sets '
             'x 4 exception sets and 4 strategy sources; the interleaved send / sleep event sequence (arguments to 1e-9, positions, which '
             'sleep function) and the object reaching the caller are compared with the model. '
             'Also: delays that come back below the cap, exceptions that wrap a listed one, per-request strategies that list nothing, error codes from the reserved server-error range. '
             'Round 8: user-defined iterator backoffs; the requests / httpx backends against a loop-back peer that drops connections. '
             'Also: attempts that end in an exception the client raises itself while processing the reply (IdentityError for a stale answer), listed directly / through a base class / not listed. '
             'Also: batch.proxy...call() and batch(...)...call() entry points.',
        note='trusted: vmon/models/retry.py; the names time/asyncio inside pjrpc.client.retry are rebound to recording shims'),
    'C10': dict(
        category='exploration', design_ref='DESIGN.md §3 C10, §2.7, §8',
        technique='runtime monitor: controlled asyncio scheduler enumerating all interleavings (stateless DFS re-execution)',
        text='Batches of 2..4 (thorough 5) elements over 11 profiles (calls, notifications, plain methods; success, protocol error, arbitrary '
             'exception; 0..2 suspension points in method, middleware or error handler), with coroutine and plain-callable middlewares, '
             'are dispatched by the real AsyncDispatcher under a scheduler that parks every instrumented coroutine and resumes exactly '
             'one per step; all schedules of every generated shape are executed and judged (request-order array, own ids / results, '
             'run-once, nothing left in flight, sequential mode never overlapping and in request order). '
             'Element profiles include plain methods raising TypeError, class-based view methods keeping state on self, the codes -32600 / -32700, per-code handlers that sign the error, and a context variable set by the middleware and read after the method\'s suspension points. '
             'Round 8: one-element batches; dispatchers handed out by the aiohttp integration. '
             'Also: elements calling unregistered methods; an integration application whose own dispatcher is explicitly configured the other way round than the endpoint dispatcher under test. '
             'Also: a dispatcher with its own response class and a middleware that builds plain responses.',
        note='trusted: vmon/sched.py; exhaustive over user-code suspension points of the generated shapes only'),
    'C11': dict(
        category='exploration', design_ref='DESIGN.md §3 C11, §8',
        technique='runtime monitor: pairwise differential execution of the sync and async twins on identical inputs',
        text='The request corpora of C01-C03 (x batch limits) and the middleware / handler configurations of C12 run on the sync dispatcher, '
             'the async dispatcher with coroutines, with plain functions, with suspending middlewares and in sequential-batch mode; notifications '
             'answered with 16 kinds of body and one batch object fired several times on both clients; C09 retry '
             'sessions with tracers, C19 scripted attempt outcomes incl. BaseException / CancelledError, C07 call programs x notations and '
             'C08 scripted response documents run on the sync and the async client. Documents, code tuples, execution logs, event '
             'sequences, wire documents, outcomes, tracer events and sleep arguments are compared pairwise; no model is involved. '
             'Round 8: the sync and async httpx backends against one scripted HTTP peer (media types x answers). '
             'Also: an application encoder whose default() writes the request objects itself; answers whose bytes are not valid in the declared / default charset on the httpx backend pair. '
             'Also: results the response encoder refuses, on both dispatcher halves.',
        note='trusted: only the comparison code; a defect present in both twins is invisible here (other checks cover that)'),
    'C12': dict(
        category='exploration', design_ref='DESIGN.md §3 C12, §8',
        technique='runtime monitor: event log of instrumented middlewares/handlers vs straight-line model of the configuration',
        text='All 156 stacks of 0..3 (thorough 4) middlewares over five kinds (pass-through, short-circuit, request-rewriting, response-'
             'rewriting, answer-everything) x 9 error-handler tables (incl. one handler object listed several times) x 24 request documents (incl. one-element and all-notification '
             'batches, rejected documents) x {sync, async, async with suspending middlewares, async sequential-batch, async with hooks returning futures / '
             '__await__ objects, dispatchers obtained from flask / aiohttp add_endpoint() next to decoy hooks} run on the real '
             'dispatchers; per-element enter/exit/handler event sequences (with the objects handed over), executions and the response '
             'sent are compared with the model. '
             'Round 8: dispatchers configured with their own response classes, plain dict contexts. '
             'Also: a middleware refusing calls with an error response carrying the request id and a -32600 / -32700 code; handlers translating failures into those codes. '
             'Also: handler entries under the rejection codes; the endpoint dispatcher of an aiohttp application served below an outer prefix, reached over HTTP.',
        note='trusted: the model in vmon/monitors/c12.py + vmon/models/server.py; probes do not raise'),
    'C13': dict(
        category='exploration', design_ref='DESIGN.md §3 C13, §8',
        technique='runtime monitor: fresh-vs-used dispatcher differential, weakref/gc leak detector, multi-thread run with sys.monitoring yield injection',
        text='(1) histories of <= 6/12 corpus requests followed by each of 12 probes, compared with a fresh dispatcher; (2) N in {1,10,1000} '
             'dispatches (succeeding, refused, failing) with fresh contexts on function / positional-context / view methods under three '
             'validators, then weak references to contexts, view instances and method-local objects must be dead and gc counts flat; '
             '(3) 1000 requests with pairwise distinct client-controlled strings: gc counts and the logging manager must not grow; '
             '(4) 2..16 threads on one dispatcher with GIL yields injected at statement starts of dispatcher.py / validators / pjrpc/common, incl. cold '
             'dispatchers with response-changing middlewares, every response compared with the model / a sequential twin; (5) hooks that raise in the leak workload; (6) a fingerprint of '
             'interpreter-wide settings (int digit limit, recursion limit, logging levels, json default codec ...) before, after and during dispatches. '
             'Also: dispatches cancelled from outside while batch members are suspended, one AsyncDispatcher under several event loops, the same request text repeated before a probe that mutates its arguments, custom validator code failing before a probe. '
             'Also: requests carrying extension members with per-request values (judged on sys.getallocatedblocks), application decoder / encoder classes with per-document state on the instance. '
             'Also: a jsonschema-validated method with $id / $ref and a slow user format check in the thread workload.',
        note='trusted: vmon/models/server.py; held on the interleavings observed (counted in the evidence), not on all'),
    'C14': dict(
        category='exploration', design_ref='DESIGN.md §3 C14, §8',
        technique='runtime monitor: generated validated methods vs hand-written schema evaluator / annotation table',
        text='Methods of 1..3 parameters with JSON-schema fragments (JsonSchemaValidator; required / additionalProperties stricter than the '
             'signature) or annotations incl. models, enums, Annotated constraints and a model whose field validator raises '
             '(PydanticValidator, coercion on/off; x: T = None defaults; schemas declaring draft-04), with context and excluded parameters, as function / coroutine / view method, are '
             'called with conforming, coercible and non-conforming values positionally and by name; executed-iff-conforming, -32602 with '
             'encodable data, unchanged / converted arguments and non-settable excluded parameters are judged against an evaluator '
             'written for exactly that alphabet. One function object is also registered without a context. '
             'Also: per-item array constraints, methods compiled under postponed annotations in a real module, dispatchers handed out by an integration\'s add_endpoint(). '
             'Also: unhashable mutable defaults ([] / {}) under the pydantic validator. '
             'Also: a json_loader yielding Decimal; a context handed over positionally.',
        note='trusted: frag_ok / schema_ok and the ANNOT table in vmon/monitors/c14.py (checked against pydantic 2.13 lax mode)'),
    'C15': dict(
        category='exploration', design_ref='DESIGN.md §3 C15, §8',
        technique='runtime monitor: registration histories vs name model, probed with real requests (own-token targets)',
        text='Histories of add / add(name=) (plain and decorator-factory forms) / add_methods / view / merge / attach / dispatcher.add / '
             'dispatcher.view over registries with prefixes None, "a", "a.b" (<= 3 operations enumerated over a reduced alphabet, <= 6 '
             'sampled, crafted three-level, same-prefix and repeated-source merges, re-registrations) on both dispatchers; every model '
             'name, every name one edit away and every private / dunder / non-callable member of views with instance, static, class '
             'and inherited members (also from mixins behind ViewMixin, and a derived view replacing its base) under every prefix in play, and explicitly registered underscore names, is requested and the reached target token compared with the model. '
             'Names may be given as str-mixin enum members or str subclasses; a registered view whose constructor raises KeyError must not look unregistered; a derived view may turn an inherited attribute into a method. '
             'Also: names padded with white space; public view methods named like library vocabulary (context, method). '
             'Also: functools.wraps aliases renamed after wrapping; view members with a trailing underscore.',
        note='trusted: the name model inside vmon/monitors/c15.py; add_methods(Method) under a prefix is not judged'),
    'C16': dict(
        category='exploration', design_ref='DESIGN.md §3 C16, §8',
        technique='runtime monitor: official meta-schema validation (out of process), $ref resolver, purity fingerprints, metamorphic isolation relation',
        text='Generated method sets (annotated parameter / return types incl. models and enums, docstrings, annotation combinations incl. a '
             'shared errors list, status-mapped errors and component prefixes on some methods only, view methods, one name on two endpoints) '
             'x five extractor stacks x endpoint prefixes become OpenAPI 3.1.0 / 3.0.3 and OpenRPC 1.3.2 documents 1..3 times, with a '
             'bystander specification built in between; exceptions, encodability, completeness, repeat-identity, fingerprints of metadata / '
             'user objects, "entry alone == entry together in any order (component names included)", "a reused specification object == a '
             'fresh one" are judged in process, meta-schema validity and dangling $refs by a jsonschema-4 worker. '
             'Also: parameters named ref, hand-written content descriptors, docstrings with types but no text, abstract / unknown names in :raises:, undocumented overrides of documented base methods, names differing only in separators; meta-schema failures are located by their innermost sub-error. '
             'Also: methods that are functools.partial objects over one function, pydantic model configuration handed through the extractor, tuples / a set among OpenAPI example values. '
             'Also: root paths with a trailing slash; one annotate(...) decorator object on several methods with another stacked above.',
        note='trusted: vendored meta-schemas (hash-pinned copies of tests/server/resources), jsonschema 4.26 of python3-vt; known findings D13d, D22, D23'),
    'C17': dict(
        category='exploration', design_ref='DESIGN.md §3 C17, §8',
        technique='runtime monitor: documented parameter sets vs the dispatcher as acceptance reference over all params-object subsets',
        text='All signatures of <= 3 (+ sampled 4; thorough all 4 + sampled 5) positional-or-keyword / keyword-only parameters x defaults x '
             'context parameter at each position (by name / positional) x exclusion predicate (by name, by default, by annotation) x '
             'function / instance, static and class view method / wrapper publishing a narrowed __signature__ are documented by OpenAPI 3.1 and OpenRPC (pydantic extractor), acceptance judged under the base validator and three pydantic configurations; documented names / required lists are '
             'compared with the signature, and params objects over all subsets of (documented + undocumented + context + excluded names) '
             'are dispatched on the real dispatcher to compare acceptance with the document\'s prediction; the same function is also '
             'registered without a context and both registrations are probed alternately. '
             'Also OpenAPI 3.0.x documents, parameters named like schema keywords, *rest parameters, Optional annotations on required parameters, a bystander method whose name differs only in a separator. '
             'Also: required parameters described through pydantic.Field(...) as python default; the extractor option json_schema_serialization_defaults_required. '
             'Also: defaults produced by a factory; Method objects derived through copy().',
        note='trusted: the real dispatcher with the base validator as acceptance reference (itself judged by C04)'),
    'C18': dict(
        category='exploration', design_ref='DESIGN.md §3 C18, §8',
        technique='runtime monitor: framework test clients vs twin dispatcher, cross-integration differential',
        text='HTTP POSTs over 19 media-type header forms (documented types with / without parameters, case variants, near misses, unrelated, '
             'missing) plus declared non-UTF-8 charsets, x ~55 bodies from the C01-C03 corpus (batches, notifications, garbage, undecodable) '
             'x four status-by-error functions x three path prefixes x root / added / sub-application endpoints that answer with their own '
             'name go through aiohttp (loop-back TestServer), flask and werkzeug applications built by the integrations; status, recorded '
             'status-function argument, body document, content type, empty-200, 415-and-no-execution and escaping exceptions are judged '
             'against a twin dispatcher called directly, and the three replies to one request against each other. '
             'A reply that never comes is a verdict only if a control request to the same application is answered; endpoints behind a flask blueprint with its own url_prefix. '
             'Round 8: structured-suffix media types; a pjrpc sub-Application mounted through add_subapp. '
             'Also: status functions returning statuses without a registered reason phrase (299, 499, 520, 599); a hosting application that reads the body before the integration does. '
             'Also: a process-wide default content type other than application/json; bodies starting with a byte-order mark.',
        note='trusted: the twin dispatcher (itself judged by C01-C03); loop-back sockets must be available for the aiohttp part'),
    'C19': dict(
        category='fault_enumeration', design_ref='DESIGN.md §3 C19, §8',
        technique='runtime monitor: tracer-event automaton over scripted attempt outcomes incl. real task cancellation and concurrent requests',
        text='Requests of each kind are sent with 0..3 recording tracers and retry strategies of 0..3 attempts through a transport scripted '
             'over 11 per-attempt outcomes (incl. BaseException, CancelledError raised by the transport, cancelling the client task while '
             'the transport is suspended), with tracers whose handlers are class or instance attributes, notifications answered with a '
             'body under strict / non-strict clients, also from inside an except block, and 2..3 requests are kept in flight through one async client '
             'and released in every order; an automaton checks begin/completion pairing per attempt, configuration order, payload identity, '
             'trace-context identity and the exception reaching the caller. '
             'Also: StopIteration raised by the transport, batches built with strict=False, a last tracer that raises in a completion handler (judged for one begin / exactly one completion per tracer). '
             'Round 8: LoggingTracer riding along, tracers given as deque / dict view, contexts that take no attributes. '
             'Also: distinct tracers that compare equal. '
             'Also: exception groups, KeyboardInterrupt and SystemExit as attempt outcomes.',
        note='trusted: vmon/models/retry.py for which attempts happen; probe tracers do not raise'),
    'C20': dict(
        category='exploration', design_ref='DESIGN.md §3 C20, §8',
        technique='runtime monitor: model-based operation/call histories through the patched transport of the real mocker',
        text='Histories of add / replace / remove / reset operations and single / batch (1..3 elements) calls (positional and named params, ids incl. 0 and '
             '"") over 2 endpoints x 2 methods, passthrough on/off, sync and async transports are executed against the real PjRpcMocker; '
             'after every call the reply text, refusal, passthrough invocation and mocker.calls are compared with a rotating-list model. '
             'Histories of <= 3 operations over a reduced alphabet are enumerated, longer ones sampled. '
             'Also: batches of one element, parameter names of the mocker\'s own functions, negative replace indices, stop/start of one mocker object, the library\'s requests / httpx / aiohttp backends with non-normalised URLs. '
             'Round 8: patches configured with id=, pass-through to the library backends\' real transport. '
             'Also: configured errors as seen through send / call / a batch element of the real client, for codes with and without an error class of their own. '
             'Also: recorded / callback arguments of calls made through every client notation.',
        note='trusted: the list model inside vmon/monitors/c20.py; notifications and invalid remove/replace are not generated'),
}

# round 11 additions to the explored space (appended to the texts above)
ROUND11 = {
    'C01': 'results / error data that are mappings with non-string keys, exceptions chained to protocol errors, one long-lived error object raised again and again, application error objects with a truth value of their own, large (17..260) batches of really suspending elements, every warning escalated to an exception as a dispatcher flavour (totality only).',
    'C02': 'the probes of C01 plus one dispatcher object serving under several event loops in turn (incl. batches of more than 64 suspending elements), one pydantic validator shared by two modules whose functions have the same signature text, defaults that compare equal across methods (1 / True / 1.0).',
    'C03': 'exceptions explicitly chained to (or raised while handling) a protocol error are still arbitrary exceptions; a long-lived error object updated and raised again must be reproduced with its current code / message / data.',
    'C04': 'server-side context objects of any truth value ({} [] () set() \'\' b\'\' 0 0.0 False, objects with __len__ 0 / __bool__ False, None counted unjudged) in all three context-passing modes.',
    'C05': 'application error classes registered under falsy / edge codes (0, +-1, 2^31, -2^63 ...), declared late; messages deserialised after mutable members of an earlier message were modified in place (survivor histories).',
    'C06': 'additional members on error objects / envelopes through every from_json route; extend() handed lists, tuples, dict views and one-shot iterables; null-id objects carrying both error and result.',
    'C07': 'the library\'s own requests / httpx (sync, async) / aiohttp client backends over HTTP against a loop-back peer serving the probe world; the batch.proxy...() call form.',
    'C08': '22 wrong spellings of the reply\'s jsonrpc member at every level (single, batch element, batch-level error); batch-level error objects that also carry a result.',
    'C09': 'zero-valued backoff parameters (max_value / base / factor / multiplier of 0 and 0.0); notifications from strict and lenient clients over transports that answer them (judged: lenient client or empty body = one send, no pause, None).',
    'C10': 'parameterless methods taking the context by keyword next to parameterless methods without context, across batches and dispatchers sharing the default validator; elements whose callable returns a coroutine without being a coroutine function (async __call__, wrapped async def, delegating def, partials).',
    'C11': 'caller-supplied trace contexts of any truth value on both client halves.',
    'C12': 'error handlers returning falsy error objects at every position; middlewares / handler lists handed over as one-shot and other non-list iterables to the core dispatchers and to the aiohttp / flask / werkzeug integration objects.',
    'C13': 'per-code signing error handlers in the used-vs-fresh histories; one pydantic validator over two modules with the same signature text; defaults comparing equal across methods; long-lived error object and non-string-key probes.',
    'C14': 'one validator object over several same-named functions with different signatures (all validators, functions and views, varying call order); class / static view methods; validator-level default schemas.',
    'C15': 'registered callables and view classes with unusual truthiness through every registration entry point; names and prefixes starting / ending with or doubling the separator.',
    'C16': 'methods documenting different error classes that share a code; methods_map values as one-shot and other non-list iterables; the document as served by the aiohttp / flask integrations over HTTP (compared with schema() on a fresh specification object).',
    'C17': 'one extractor / specification object documenting same-named callables with different signatures in both orders and across generations; JSON null as the value of by-name parameters with / without defaults.',
    'C18': 'chunked and streamed request bodies (no Content-Length), split bodies, terminated WSGI input; results with non-string mapping keys on all three integrations.',
    'C19': 'falsy tracers, tracers in nine re-iterable containers and as one-shot iterables; one batch object reused over several round trips and grown through every adding entry point in between.',
    'C20': 'several mockers alive at the same time (same and different pairs, one stopped while the other is active); configured errors whose data is set but falsy.',
}

NOT_BUILT_REASON = 'no check registered yet in this round (monitor under construction, see DESIGN.md §3)'


def main() -> int:
    props = [json.loads(l)['id'] for l in open(os.path.join(HERE, 'properties.jsonl'))]
    checks, na = [], []
    for pid in props:
        c = CHECKS.get(pid)
        if c and os.path.exists(os.path.join(HERE, 'vmon', 'monitors', f'{pid.lower()}.py')):
            checks.append({
                'property_id': pid,
                'quick_cmd': f'./check {pid} --tier quick',
                'thorough_cmd': f'./check {pid} --tier thorough',
                'evidence_file': f'/verif/evidence/{pid}.json',
                'replay_cmd_template': f'./check {pid} --replay {{path}}',
                'engine': 'vmon',
                'level_claimed': {'category': c['category'],
                                  'text': c['text'] + (' Round 11: ' + ROUND11[pid] if pid in ROUND11 else ''),
                                  'design_ref': c['design_ref']},
                'level_note': c['note'],
                'technique': c['technique'],
            })
        else:
            na.append({'property_id': pid, 'reason': c.get('na_reason', NOT_BUILT_REASON) if c else NOT_BUILT_REASON})
    fixes = subprocess.run(['git', '-C', '/repo', 'log', '--format=%h', '--grep=^hook:'], capture_output=True,
                           text=True).stdout.split()
    manifest = {
        'version': 1,
        'setup_cmd': './setup.sh',
        'hooks': {
            'guard': 'PJRPC_VERIF',
            'enable': 'checks export PJRPC_VERIF=1 into every shard; /repo currently contains no hook code (all events '
                      'are observed at API boundaries, through user-supplied callbacks and sys.monitoring)',
            'baseline_off_cmd': 'cd /repo && env -u PJRPC_VERIF /venv/bin/python -m pytest -ra -q -p no:cacheprovider '
                                '--timeout=900 --continue-on-collection-errors',
            'source_commits': fixes,
            'add_only': True,
        },
        'engines': [{
            'name': 'vmon', 'path': '/verif/vmon', 'serves_properties': [c['property_id'] for c in checks],
            'kind_free_text': 'Python runtime monitors: reference-model oracles over events observed at API boundaries of '
                              'the real code, controlled asyncio scheduler, sys.monitoring reach recorder / yield injector',
        }],
        'checks': checks,
        'not_applicable': na,
        'notes': 'Exit codes: 0 held (KNOWN-FINDING lines possible), 1 VIOLATION, 2 INCONCLUSIVE (reach floor missed, '
                 'timeout, harness failure). Known findings: /verif/known_findings.json. VERIF_SEED / VERIF_TIER honoured.',
    }
    path = os.path.join(HERE, 'MANIFEST.json')
    with open(path, 'w') as f:
        json.dump(manifest, f, indent=1)
    r = subprocess.run(['python3-vt', '-c', '''
import json, jsonschema, sys
jsonschema.validate(json.load(open(sys.argv[1])), json.load(open("/root/.vp/MANIFEST.schema.json")))
print("manifest valid:", sys.argv[1])
''', path])
    return r.returncode


if __name__ == '__main__':
    sys.exit(main())
