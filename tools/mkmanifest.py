#!/venv/bin/python
"""Regenerates /verif/MANIFEST.json from the table below and validates it against the schema.
A property is claimed iff its monitor module exists under vmon/monitors/."""
import json
import os
import subprocess
import sys

HERE = os.path.dirname(os.path.dirname(os.path.abspath(__file__)))

CHECKS = {
    'C01': dict(
        category='exploration', design_ref='DESIGN.md §3 C01',
        technique='runtime monitor: strict RFC 8259 re-decoding + response-shape oracle over generated request texts',
        text='Every generated request text (member-alphabet product, batches over 15 element kinds exhaustive to length '
             '2/3, edited and random non-JSON texts, 1..20000-digit integers, nesting 1..64) is dispatched on the real '
             'sync and async dispatcher under 4 batch-size limits; an independent strict JSON decoder and a structural '
             'checker judge each return value. Exploration is the right level: the domain is infinite and the refuting '
             'event (an escaping exception, a malformed document, disagreeing codes) is directly observable.',
        note='trusted: vmon/strictjson.py, vmon/models/wire.py; probe methods return JSON-encodable values'),
}

NOT_BUILT_REASON = 'no check registered yet in this round (monitor under construction, see DESIGN.md §3)'


def main() -> int:
    props = [json.loads(l)['id'] for l in open(os.path.join(HERE, 'properties.jsonl'))]
    checks, na = [], []
    for pid in props:
        c = CHECKS.get(pid)
        if c and os.path.exists(os.path.join(HERE, 'vmon', 'monitors', f'{pid.lower()}.py')):
            checks.append({
                'property_id': pid,
                'quick_cmd': f'./check {pid} --tier quick',
                'thorough_cmd': f'./check {pid} --tier thorough',
                'evidence_file': f'/verif/evidence/{pid}.json',
                'replay_cmd_template': f'./check {pid} --replay {{path}}',
                'engine': 'vmon',
                'level_claimed': {'category': c['category'], 'text': c['text'], 'design_ref': c['design_ref']},
                'level_note': c['note'],
                'technique': c['technique'],
            })
        else:
            na.append({'property_id': pid, 'reason': c.get('na_reason', NOT_BUILT_REASON) if c else NOT_BUILT_REASON})
    fixes = subprocess.run(['git', '-C', '/repo', 'log', '--format=%h', '--grep=^hook:'], capture_output=True,
                           text=True).stdout.split()
    manifest = {
        'version': 1,
        'setup_cmd': './setup.sh',
        'hooks': {
            'guard': 'PJRPC_VERIF',
            'enable': 'checks export PJRPC_VERIF=1 into every shard; /repo currently contains no hook code (all events '
                      'are observed at API boundaries, through user-supplied callbacks and sys.monitoring)',
            'baseline_off_cmd': 'cd /repo && env -u PJRPC_VERIF /venv/bin/python -m pytest -ra -q -p no:cacheprovider '
                                '--timeout=900 --continue-on-collection-errors',
            'source_commits': fixes,
            'add_only': True,
        },
        'engines': [{
            'name': 'vmon', 'path': '/verif/vmon', 'serves_properties': [c['property_id'] for c in checks],
            'kind_free_text': 'Python runtime monitors: reference-model oracles over events observed at API boundaries of '
                              'the real code, controlled asyncio scheduler, sys.monitoring reach recorder / yield injector',
        }],
        'checks': checks,
        'not_applicable': na,
        'notes': 'Exit codes: 0 held (KNOWN-FINDING lines possible), 1 VIOLATION, 2 INCONCLUSIVE (reach floor missed, '
                 'timeout, harness failure). Known findings: /verif/known_findings.json. VERIF_SEED / VERIF_TIER honoured.',
    }
    path = os.path.join(HERE, 'MANIFEST.json')
    with open(path, 'w') as f:
        json.dump(manifest, f, indent=1)
    r = subprocess.run(['python3-vt', '-c', '''
import json, jsonschema, sys
jsonschema.validate(json.load(open(sys.argv[1])), json.load(open("/root/.vp/MANIFEST.schema.json")))
print("manifest valid:", sys.argv[1])
''', path])
    return r.returncode


if __name__ == '__main__':
    sys.exit(main())
