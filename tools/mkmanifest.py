#!/venv/bin/python
"""Regenerates /verif/MANIFEST.json from the table below and validates it against the schema.
A property is claimed iff its monitor module exists under vmon/monitors/."""
import json
import os
import subprocess
import sys

HERE = os.path.dirname(os.path.dirname(os.path.abspath(__file__)))

CHECKS = {
    'C01': dict(
        category='exploration', design_ref='DESIGN.md §3 C01',
        technique='runtime monitor: strict RFC 8259 re-decoding + response-shape oracle over generated request texts',
        text='Every generated request text (member-alphabet product, batches over 15 element kinds exhaustive to length '
             '2/3, edited and random non-JSON texts, 1..20000-digit integers, nesting 1..64) is dispatched on the real '
             'sync and async dispatcher under 4 batch-size limits; an independent strict JSON decoder and a structural '
             'checker judge each return value. Exploration is the right level: the domain is infinite and the refuting '
             'event (an escaping exception, a malformed document, disagreeing codes) is directly observable.',
        note='trusted: vmon/strictjson.py, vmon/models/wire.py; probe methods return JSON-encodable values'),
    'C02': dict(
        category='exploration', design_ref='DESIGN.md §3 C02',
        technique='runtime monitor: executable JSON-RPC server model + metamorphic batch=elements relation over dispatch()',
        text='Single requests over all id typings and batches over 15 element kinds (exhaustive to length 2/3, sampled to 5; '
             'duplicate ids at every pair, size limits at and around the length) are dispatched on both real dispatchers; '
             'responses (count, order, ids with JSON type, result values) and the multiset of probe-method executions are '
             'compared with an independent reference model, and every accepted batch is re-run element by element.',
        note='trusted: vmon/models/server.py (pure-Python model), vmon/strictjson.py; probe methods log every execution'),
    'C03': dict(
        category='exploration', design_ref='DESIGN.md §3 C03',
        technique='runtime monitor: failure-table reference model + leak-marker search on the raw response text',
        text='Every failure kind (not JSON, invalid request/batch, unknown method, unbindable params, protocol errors over '
             'codes incl. 0/huge, empty messages, every data shape incl. absent vs null, 11 exception types with marker '
             'strings) is driven as call, notification and batch element on both dispatchers and compared with the failure '
             'table; exception type names, marker strings and traceback text are searched in the raw response.',
        note='trusted: vmon/models/server.py, vmon/strictjson.py; data/message of library-generated errors are not judged'),
    'C04': dict(
        category='exploration', design_ref='DESIGN.md §3 C04',
        technique='runtime monitor: generated programs, Python twin call as binding oracle, context identity check',
        text='All signatures of <= 3 (thorough 4) parameters over the five parameter kinds, defaults, context placement and '
             'passing mode, def / async def / view method are generated as source, registered on the real dispatchers and '
             'driven with all positional lists 0..5 and all named subsets (incl. an unknown name and the context name); a '
             'twin function with the same signature called directly decides what must bind. Parameter names collide '
             'textually with the context name and one function object is registered with and without a context on purpose.',
        note='trusted: CPython call semantics (the twin), the admissibility rule in DESIGN.md §3 C04; known findings D4, D18'),
    'C05': dict(
        category='exploration', design_ref='DESIGN.md §3 C05',
        technique='runtime monitor: round-trip oracle (to_json -> text -> strict decode -> from_json -> to_json) with field-wise comparison',
        text='Generated requests, responses, errors, batches and batch-level errors (nested/empty/edge JSON values, all id '
             'typings, registered/unregistered codes incl. 0, empty messages, three base classes in both orders) are taken '
             'through both encoders and back; wire-form exactness is judged on an independently decoded text, exception '
             'classes with type identity; batch objects additionally through serialise/append/extend histories.',
        note='trusted: vmon/strictjson.py; generator vmon/gen/values.py; -0.0 vs 0.0 not distinguished'),
    'C06': dict(
        category='exploration', design_ref='DESIGN.md §3 C06',
        technique='runtime monitor: exhaustive member-alphabet product through from_json + list-model of append/extend histories',
        text='The full 16^4 product of request objects, 16^3 error objects, 16^3x18 response objects, non-object inputs, all '
             'batch arrays of <= 3 elements over 12 element shapes and all append/extend histories of <= 3 (sampled 4) '
             'operations over 6 ids are executed; the exception type and the accepted/refused verdict are compared with '
             'validity predicates, batch contents with a list model after every operation.',
        note='trusted: validity predicates in vmon/monitors/c06.py; float ids and rejection of valid values are not judged'),
    'C07': dict(
        category='exploration', design_ref='DESIGN.md §3 C07',
        technique='runtime monitor: loop-back client->dispatcher execution compared with direct twin invocation, wire-document oracle',
        text='Call programs of 1..4 calls/notifications over probe methods (returning, raising typed / unregistered / arbitrary '
             'errors, really suspending coroutines) are executed in all ten notations by the real sync and async clients whose '
             'transport is the real sync / async dispatcher, under four id generators, strict on/off and two error base classes; '
             'the single wire document, the value / exception reaching the caller, server-side executions and equality across '
             'notations are judged.',
        note='trusted: twin table in vmon/models/server.py, vmon/models/wire.py; known finding D7 (uuid id generator)'),
    'C08': dict(
        category='fault_enumeration', design_ref='DESIGN.md §3 C08',
        technique='runtime monitor: scripted-transport fault enumeration judged by an id-matching reference model',
        text='For batches of 1..4 calls (+notifications; ids from 1, from 0, strings incl. "") every permutation of the correct '
             'response array x success/error mixes x {omit, duplicate, unasked id, retyped / boolean / fractional / null id}, '
             'batch-level errors and garbage bodies are returned by a scripted transport to the real clients (strict on/off, '
             'send and call, also re-sending the same request object); accept / IdentityError / DeserializationError, request '
             'linking and call-order attribution of unique result tokens are compared with the model.',
        note='trusted: vmon/models/client_match.py; null-id elements inside arrays and non-JSON bodies are not judged'),
    'C09': dict(
        category='fault_enumeration', design_ref='DESIGN.md §3 C09',
        technique='runtime monitor: scripted per-attempt outcomes + recording sleep shims (virtual clock) vs retry/backoff reference model',
        text='Sessions of 1..3 requests (single / batch / notification) on one real sync or async client are driven through a '
             'transport scripted with every outcome sequence of length n+2 for n in 0..2 (3, 4 sampled) over 6 outcome kinds, '
             'under a grid of backoff families/parameters (caps below the first delay, factor 1, non-zero and negative jitter, '
             'attempts 0), 4 codes sets x 4 exception sets and 4 strategy sources; the interleaved send / sleep event sequence '
             '(arguments to 1e-9, positions, which sleep function) and the object reaching the caller are compared with the model.',
        note='trusted: vmon/models/retry.py; the names time/asyncio inside pjrpc.client.retry are rebound to recording shims'),
    'C19': dict(
        category='fault_enumeration', design_ref='DESIGN.md §3 C19',
        technique='runtime monitor: tracer-event automaton over scripted attempt outcomes incl. real task cancellation',
        text='Requests of each kind are sent with 0..3 recording tracers and retry strategies of 0..3 attempts through a transport '
             'scripted over 11 per-attempt outcomes (incl. BaseException, CancelledError raised by the transport, and cancelling '
             'the client task while the transport is suspended); an automaton checks begin/completion pairing per attempt, '
             'configuration order, payload identity, trace-context identity and the exception reaching the caller.',
        note='trusted: vmon/models/retry.py for which attempts happen; probe tracers do not raise'),
    'C20': dict(
        category='exploration', design_ref='DESIGN.md §3 C20',
        technique='runtime monitor: model-based operation/call histories through the patched transport of the real mocker',
        text='Histories of add / replace / remove / reset operations and single / batch calls (positional and named params, ids '
             'incl. 0 and "") over 2 endpoints x 2 methods, passthrough on/off, sync and async transports are executed against '
             'the real PjRpcMocker; after every call the reply text, refusal, passthrough invocation and mocker.calls are '
             'compared with a rotating-list model. Short histories over a reduced alphabet are enumerated, longer ones sampled.',
        note='trusted: the list model inside vmon/monitors/c20.py; notifications and invalid remove/replace are not generated'),
    'C10': dict(
        category='exploration', design_ref='DESIGN.md §3 C10, §2.7',
        technique='runtime monitor: controlled asyncio scheduler enumerating all interleavings (stateless DFS re-execution)',
        text='Batches of 2..4 elements over 11 profiles (calls, notifications, plain methods; success, protocol error, arbitrary '
             'exception; 0..2 suspension points in method, middleware or error handler) are dispatched by the real '
             'AsyncDispatcher under a scheduler that parks every instrumented coroutine and resumes exactly one per step; all '
             'schedules of every generated shape are executed and judged (request-order array, own ids/results, run-once, nothing '
             'left in flight, sequential mode never overlapping).',
        note='trusted: vmon/sched.py; exhaustive over user-code suspension points of the generated shapes only'),
    'C12': dict(
        category='exploration', design_ref='DESIGN.md §3 C12',
        technique='runtime monitor: event log of instrumented middlewares/handlers vs straight-line model of the configuration',
        text='All 85 stacks of 0..3 middlewares over four kinds x 8 error-handler tables x 20 request documents x {sync, async, '
             'async with suspending middlewares} run on the real dispatchers; per-element enter/exit/handler event sequences '
             '(with the objects handed over), executions and the response sent are compared with the model.',
        note='trusted: the model in vmon/monitors/c12.py + vmon/models/server.py; probes do not raise'),
    'C15': dict(
        category='exploration', design_ref='DESIGN.md §3 C15',
        technique='runtime monitor: registration histories vs name model, probed with real requests (own-token targets)',
        text='Histories of add / add(name=) / add_methods / view / merge / attach / dispatcher.add / dispatcher.view over '
             'registries with prefixes None, "a", "a.b" (<= 3 operations enumerated over a reduced alphabet, <= 6 sampled, '
             'crafted three-level and same-prefix merges and re-registrations) are executed on both dispatchers; every model '
             'name, every name one edit away and every private / dunder / non-callable view member under every prefix in play '
             'is requested and the reached target token (or -32601) compared with the model; the registry key set too.',
        note='trusted: the name model inside vmon/monitors/c15.py; add_methods(Method) under a prefix is not judged'),
    'C13': dict(
        category='exploration', design_ref='DESIGN.md §3 C13',
        technique='runtime monitor: fresh-vs-used dispatcher differential, weakref/gc leak detector, multi-thread run with sys.monitoring yield injection',
        text='(1) histories of <= 6/12 corpus requests followed by each of 10 probes, answer and executions compared with a fresh '
             'dispatcher; (2) N in {1,10,1000} dispatches with fresh contexts on function / positional-context / view methods '
             'under three validators, then weak references to contexts, view instances and method-local objects must be dead and '
             'gc object counts flat; (3) 2..16 threads on one dispatcher with GIL yields injected at statement starts of '
             'dispatcher.py / validators, every response compared with the model answer and searched for foreign tokens.',
        note='trusted: vmon/models/server.py; held on the interleavings observed (counted in the evidence), not on all'),
    'C14': dict(
        category='exploration', design_ref='DESIGN.md §3 C14',
        technique='runtime monitor: generated validated methods vs hand-written schema evaluator / annotation table',
        text='Methods of 1..3 parameters with JSON-schema fragments (JsonSchemaValidator) or annotations incl. models, enums and a '
             'model whose field validator raises (PydanticValidator, coercion on/off), with context and excluded parameters, as '
             'function / coroutine / view method, are registered on the real dispatchers and called with conforming, coercible '
             'and non-conforming values positionally and by name; executed-iff-conforming, -32602 with encodable data, run-never-'
             'on-refusal, unchanged / converted arguments and non-settable excluded parameters are judged against an evaluator '
             'written for exactly that alphabet. One function object is also registered without a context on purpose.',
        note='trusted: frag_ok / schema_ok and the ANNOT table in vmon/monitors/c14.py (checked against pydantic 2.13 lax mode)'),
    'C11': dict(
        category='exploration', design_ref='DESIGN.md §3 C11',
        technique='runtime monitor: pairwise differential execution of the sync and async twins on identical inputs',
        text='The request corpora of C01-C03 (x batch limits) and the middleware / handler configurations of C12 run on the sync '
             'dispatcher, the async dispatcher with coroutines and the async dispatcher with plain functions; C09 retry sessions '
             'with tracers, C07 call programs x notations and C08 scripted response documents run on the sync and the async '
             'client. Response documents, code tuples, execution logs, event sequences, wire documents, outcomes, tracer events '
             'and sleep arguments are compared pairwise; no model is involved, so any one-sided edit of the duplicated code shows.',
        note='trusted: only the comparison code; a defect present in both twins is invisible here (other checks cover that)'),
    'C18': dict(
        category='exploration', design_ref='DESIGN.md §3 C18',
        technique='runtime monitor: framework test clients vs twin dispatcher, cross-integration differential',
        text='HTTP POSTs over 19 media-type header forms (documented types with / without parameters, case variants, near misses, '
             'unrelated, missing) x ~50 bodies from the C01-C03 corpus (incl. batches, notifications, garbage, non-UTF-8) x three '
             'status-by-error functions x three path prefixes x root / added endpoint go through aiohttp (loop-back TestServer), '
             'flask and werkzeug applications built by the integrations; status, recorded status-function argument, body '
             'document, content type, empty-200, 415-and-no-execution and escaping exceptions are judged against a twin '
             'dispatcher called directly, and the three replies to one request against each other.',
        note='trusted: the twin dispatcher (itself judged by C01-C03); loop-back sockets must be available for the aiohttp part'),
    'C16': dict(
        category='exploration', design_ref='DESIGN.md §3 C16',
        technique='runtime monitor: official meta-schema validation (out of process), $ref resolver, purity fingerprints, metamorphic isolation relation',
        text='Generated method sets (annotated parameter / return types incl. models and enums, docstrings, annotation '
             'combinations incl. a shared errors list and component prefixes on some methods only, view methods, the same name on '
             'two endpoints) x five extractor stacks x endpoint prefixes are turned into OpenAPI 3.1.0 / 3.0.3 and OpenRPC 1.3.2 '
             'documents 1..3 times; exceptions, encodability, completeness, repeat-identity, fingerprints of metadata / user '
             'objects, "entry alone == entry together in any order", "a specification object reused for another registry == a '
             'fresh one" are judged in process, meta-schema validity and dangling $refs by a jsonschema-4 worker.',
        note='trusted: vendored meta-schemas (hash-pinned copies of tests/server/resources), jsonschema 4.26 of python3-vt; known findings D13d, D22, D23'),
    'C17': dict(
        category='exploration', design_ref='DESIGN.md §3 C17',
        technique='runtime monitor: documented parameter sets vs the dispatcher as acceptance reference over all params-object subsets',
        text='All signatures of <= 3 (thorough 4) positional-or-keyword / keyword-only parameters x defaults x context parameter at '
             'each position (by name / positional) x exclusion predicate x function / view method are documented by OpenAPI 3.1 and '
             'OpenRPC (pydantic extractor); the documented names / required lists are compared with the signature, and params '
             'objects over all subsets of (documented + undocumented + context + excluded names) are dispatched on the real '
             'dispatcher to compare acceptance with the document\'s prediction. The same function is also registered without a '
             'context designation and both registrations are probed alternately.',
        note='trusted: the real dispatcher with the base validator as acceptance reference (itself judged by C04)'),
}

NOT_BUILT_REASON = 'no check registered yet in this round (monitor under construction, see DESIGN.md §3)'


def main() -> int:
    props = [json.loads(l)['id'] for l in open(os.path.join(HERE, 'properties.jsonl'))]
    checks, na = [], []
    for pid in props:
        c = CHECKS.get(pid)
        if c and os.path.exists(os.path.join(HERE, 'vmon', 'monitors', f'{pid.lower()}.py')):
            checks.append({
                'property_id': pid,
                'quick_cmd': f'./check {pid} --tier quick',
                'thorough_cmd': f'./check {pid} --tier thorough',
                'evidence_file': f'/verif/evidence/{pid}.json',
                'replay_cmd_template': f'./check {pid} --replay {{path}}',
                'engine': 'vmon',
                'level_claimed': {'category': c['category'], 'text': c['text'], 'design_ref': c['design_ref']},
                'level_note': c['note'],
                'technique': c['technique'],
            })
        else:
            na.append({'property_id': pid, 'reason': c.get('na_reason', NOT_BUILT_REASON) if c else NOT_BUILT_REASON})
    fixes = subprocess.run(['git', '-C', '/repo', 'log', '--format=%h', '--grep=^hook:'], capture_output=True,
                           text=True).stdout.split()
    manifest = {
        'version': 1,
        'setup_cmd': './setup.sh',
        'hooks': {
            'guard': 'PJRPC_VERIF',
            'enable': 'checks export PJRPC_VERIF=1 into every shard; /repo currently contains no hook code (all events '
                      'are observed at API boundaries, through user-supplied callbacks and sys.monitoring)',
            'baseline_off_cmd': 'cd /repo && env -u PJRPC_VERIF /venv/bin/python -m pytest -ra -q -p no:cacheprovider '
                                '--timeout=900 --continue-on-collection-errors',
            'source_commits': fixes,
            'add_only': True,
        },
        'engines': [{
            'name': 'vmon', 'path': '/verif/vmon', 'serves_properties': [c['property_id'] for c in checks],
            'kind_free_text': 'Python runtime monitors: reference-model oracles over events observed at API boundaries of '
                              'the real code, controlled asyncio scheduler, sys.monitoring reach recorder / yield injector',
        }],
        'checks': checks,
        'not_applicable': na,
        'notes': 'Exit codes: 0 held (KNOWN-FINDING lines possible), 1 VIOLATION, 2 INCONCLUSIVE (reach floor missed, '
                 'timeout, harness failure). Known findings: /verif/known_findings.json. VERIF_SEED / VERIF_TIER honoured.',
    }
    path = os.path.join(HERE, 'MANIFEST.json')
    with open(path, 'w') as f:
        json.dump(manifest, f, indent=1)
    r = subprocess.run(['python3-vt', '-c', '''
import json, jsonschema, sys
jsonschema.validate(json.load(open(sys.argv[1])), json.load(open("/root/.vp/MANIFEST.schema.json")))
print("manifest valid:", sys.argv[1])
''', path])
    return r.returncode


if __name__ == '__main__':
    sys.exit(main())
