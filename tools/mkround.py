#!/usr/bin/env python3
"""Prepares a round of breaker sub-agents: one scratch worktree of /repo and one prompt file per property under ROUND (edit ROUND,
the two change ids and the round number in the text). The prompt holds the property text and every earlier trigger, nothing of /verif."""
import json, os, subprocess, glob
ROUND='/tmp/r11'
props={}
for l in open('/verif/properties.jsonl'):
    d=json.loads(l); props[d['id']]=d
for pid,d in props.items():
    used=[]
    for m in sorted(glob.glob(f'/verif/seeded/{pid}?/meta.json')):
        mm=json.load(open(m)); used.append((mm['id'], mm['needs_to_manifest'].strip()))
    wt=f'{ROUND}/{pid}/wt'
    os.makedirs(f'{ROUND}/{pid}/u',exist_ok=True); os.makedirs(f'{ROUND}/{pid}/v',exist_ok=True)
    if not os.path.exists(wt):
        subprocess.run(['git','-C','/repo','worktree','add','--detach',wt,'HEAD'],check=True,capture_output=True)
    anchors=json.dumps(d.get('anchors'),indent=1)
    txt=f"""You are helping to evaluate a verification effort for the open-source Python library dapper91/pjrpc (a JSON-RPC 2.0 client/server library). Your job is to play the adversary: write TWO independent, realistic changes to the library that each BREAK the semantic property below, while the package still imports and the library's existing test-suite still passes. This is sanctioned mutation-testing work in a sealed sandbox; nothing leaves this machine.

## Your working copy
A scratch git worktree of the library is at {wt} (python: /venv/bin/python; run things with `PYTHONPATH={wt}` so that this copy is imported, e.g. `cd {wt} && PYTHONPATH={wt} /venv/bin/python -m pytest -q -p no:cacheprovider -x -q tests`). Work ONLY inside {wt} and {ROUND}/{pid}/. Never use `git stash` (the stash is shared by all worktrees of the repository and other agents work next to you): use `git diff > file`, `git apply`, `git apply -R`. Do not read or write /verif or /repo (anything under those paths is off limits; do not look there). No network is available.
Note: on the unchanged worktree about 15 tests fail for environment reasons (missing optional packages); what matters is that every test that passes WITHOUT your change still passes WITH it. Record the pass/fail counts before and after.

## The property (id {pid})
Title: {d['title']}

Statement: {d['statement']}

Quantified over: {d['quantifier']['text']}

Why the existing unit tests cannot settle it: {d['why_tests_cant']}

Code anchors: {anchors}

## What to produce
Two changes, `u` and `v`, independent of each other (each applies to the unchanged worktree on its own). For each one:
* `{ROUND}/{pid}/<u|v>/patch.diff` — `git diff` of the change against the unchanged worktree (library files only, no test edits).
* `{ROUND}/{pid}/<u|v>/demo.py` — a small stand-alone program that exits 0 on the unchanged library and exits non-zero (assertion failure) with the change applied, demonstrating the violation of the property through the library's PUBLIC behaviour. It is run as `PYTHONPATH=<tree> /venv/bin/python demo.py` from another directory, so it must not depend on the current directory.
* `{ROUND}/{pid}/<u|v>/notes.md` — a few lines: what the change is disguised as, why it violates the statement unambiguously.
* `{ROUND}/{pid}/<u|v>/needs.txt` — ONE paragraph: exactly what is needed for the violation to manifest (configuration, input class, order of operations, interleaving ...).
After finishing `u`, run `git -C {wt} checkout -- . && git -C {wt} clean -fdq` before starting `v`; leave the worktree unchanged (clean) at the end.

## Requirements on the changes
* Realistic: something a maintainer could plausibly merge — a refactoring, a performance shortcut (caching, fast path for the common case, early return), a compatibility shim, a "clean-up", a feature tweak. Disguise it as legitimate work. Small (typically 3–30 changed lines).
* The violation must be UNAMBIGUOUS with respect to the statement above (not a matter of interpretation), and observable through the existing public API with existing options — do NOT add new constructor options or new public functions that would have to be used for the violation to appear.
* It must need something SPECIFIC to manifest — a particular interleaving, a fault at a particular point, a multi-step sequence of operations, an unusual-but-legal input or configuration, the second occurrence of something that is fine the first time, or two cooperating sites that each look fine alone. Ordinary use (and the existing tests) must not expose it.
* The two changes should use different mechanisms, and at least one should sit outside the file most obviously tied to the property.
* This is round 11. The {len(used)} triggers below were ALREADY USED by earlier changes for this property; do not repeat them or close variants of them. A suggested way of working: list the clauses of the statement and the dimensions of the quantifier, note which of the earlier triggers touched which, and look for what none of them needed — rarely combined options, alternative entry points into the same behaviour, error paths inside error paths, state that survives between calls, objects reused across dispatchers/clients/registries/event loops, Python-level edge values (subclasses of builtins, enums, bytes vs str, generators/iterators instead of lists, mappings that are not dicts, objects with odd `__eq__`/`__hash__`/`__bool__`/`__len__`), and behaviour that is right today only thanks to a detail a refactoring easily loses.

### Triggers already used (do not repeat)
""" + '\n'.join(f'- {t}' for _,t in used) + """

## Finish
Verify yourself: (1) tests that passed before still pass with each change, (2) each demo exits 0 without and non-zero with its change, (3) the patches apply cleanly to the unchanged worktree with `git apply`. Then reply with a short summary (for each of u and v: files touched, one-line trigger, test counts before/after, demo exit codes). If you cannot find a second valid change, deliver one and say so.
"""
    open(f'{ROUND}/{pid}/prompt.md','w').write(txt)
print('ok')
