#!/venv/bin/python
"""Seed sweep on the unchanged tree: runs every check for several VERIF_SEED values (scratch evidence dir) and reports
verdicts plus the minimum of every reach counter relative to its floor.  usage: tools/sweep.py [--tier quick] [--seeds 0-9] [--only C10]"""
import argparse
import concurrent.futures as cf
import json
import os
import shutil
import subprocess
import sys
import tempfile

HERE = os.path.dirname(os.path.dirname(os.path.abspath(__file__)))
ALL = [f'C{i:02d}' for i in range(1, 21)]


def one(args):
    pid, seed, tier = args
    ev = tempfile.mkdtemp(prefix='sweep-', dir='/var/tmp')
    env = dict(os.environ, VERIF_EVIDENCE_DIR=ev, VERIF_REPLAY_DIR=ev, VERIF_SEED=str(seed))
    r = subprocess.run([os.path.join(HERE, 'check'), pid, '--tier', tier], capture_output=True, text=True, env=env, cwd=HERE)
    cov = {}
    try:
        e = json.load(open(os.path.join(ev, f'{pid}.json')))
        cov = e['coverage']
        wall = e['wall_s']
    except Exception:
        wall = -1
    shutil.rmtree(ev, ignore_errors=True)
    lines = [l for l in r.stdout.splitlines() if l.startswith(('VIOLATION', 'INCONCLUSIVE'))]
    return pid, seed, r.returncode, lines, cov.get('reach_counters', {}), cov.get('reach_floors', {}), wall, cov.get('evaluations')


def main():
    ap = argparse.ArgumentParser()
    ap.add_argument('--tier', default='quick')
    ap.add_argument('--seeds', default='0-9')
    ap.add_argument('--only', default='')
    ap.add_argument('--jobs', type=int, default=4)
    a = ap.parse_args()
    lo, _, hi = a.seeds.partition('-')
    seeds = list(range(int(lo), int(hi or lo) + 1))
    pids = a.only.split(',') if a.only else ALL
    jobs = [(p, s, a.tier) for p in pids for s in seeds]
    mins, floors, bad, walls = {}, {}, 0, {}
    with cf.ThreadPoolExecutor(a.jobs) as ex:
        for pid, seed, rc, lines, reach, fl, wall, evals in ex.map(one, jobs):
            walls.setdefault(pid, []).append(wall)
            if rc != 0:
                bad += 1
                print(f'{pid} seed={seed} rc={rc}', *[l[:200] for l in lines[:3]], sep='\n    ')
            floors[pid] = fl
            for k in fl:
                v = reach.get(k, 0)
                mins[(pid, k)] = min(mins.get((pid, k), v), v)
    print('--- tightest reach counters (min over seeds / floor)')
    for (pid, k), v in sorted(mins.items()):
        fl = floors[pid][k]
        if v < 2 * fl:
            print(f'  {pid} {k}: min={v} floor={fl}' + ('   <-- BELOW' if v < fl else ''))
    print('--- wall seconds (max):', {p: max(w) for p, w in walls.items()})
    return 1 if bad else 0


if __name__ == '__main__':
    sys.exit(main())
