#!/venv/bin/python
"""Collects one seeded change into /verif/seeded/<id>/ after confirming it independently:
  * the patch applies to a scratch worktree of /repo's HEAD (the stored patch.diff is regenerated against HEAD),
  * the repository's pinned baseline still passes with it,
  * the demonstration exits non-zero with the change and zero without.
usage: tools/seed_collect.py <id> <property> <patch> <demo.py> <notes.md> "<what it needs to manifest>"
"""
import json
import os
import shutil
import subprocess
import sys
import tempfile

HERE = os.path.dirname(os.path.dirname(os.path.abspath(__file__)))


def sh(cmd, **kw):
    return subprocess.run(cmd, capture_output=True, text=True, **kw)


def main():
    sid, prop, patch, demo, notes, needs = sys.argv[1:7]
    dest = os.path.join(HERE, 'seeded', sid)
    os.makedirs(dest, exist_ok=True)
    wt = tempfile.mkdtemp(prefix='pjrpc-seed-', dir='/var/tmp')
    os.rmdir(wt)
    try:
        assert sh(['git', '-C', '/repo', 'worktree', 'add', '--detach', wt, 'HEAD']).returncode == 0
        head = sh(['git', '-C', '/repo', 'rev-parse', '--short', 'HEAD']).stdout.strip()
        r = sh(['git', '-C', wt, 'apply', os.path.abspath(patch)])
        if r.returncode:
            r = sh(['patch', '-p1', '--fuzz=3', '-N', '--no-backup-if-mismatch', '-s', '-i', os.path.abspath(patch)], cwd=wt)
        if r.returncode:
            print(f'{sid}: PATCH DOES NOT APPLY', r.stderr[-300:], r.stdout[-300:])
            return 1
        diff = sh(['git', '-C', wt, 'diff']).stdout
        tests = sh([os.path.join(HERE, 'tools', 'baseline.py'), wt])
        env_p = dict(os.environ, PYTHONPATH=wt, PYTHONDONTWRITEBYTECODE='1')
        env_c = dict(os.environ, PYTHONPATH='/repo', PYTHONDONTWRITEBYTECODE='1')
        dp = sh(['/venv/bin/python', os.path.abspath(demo)], env=env_p, cwd='/var/tmp', timeout=600)
        dc = sh(['/venv/bin/python', os.path.abspath(demo)], env=env_c, cwd='/var/tmp', timeout=600)
        ok = tests.returncode == 0 and dp.returncode != 0 and dc.returncode == 0
        print(f"{sid}: tests={'ok' if tests.returncode == 0 else 'REGRESSION'} [{tests.stdout.strip().splitlines()[0] if tests.stdout else ''}] "
              f"demo patched rc={dp.returncode} clean rc={dc.returncode} -> {'KEPT' if ok else 'REJECTED'}")
        if not ok:
            if dc.returncode != 0:
                print('   clean demo output:', (dc.stdout + dc.stderr)[-400:])
            shutil.rmtree(dest, ignore_errors=True)
            return 1
        with open(os.path.join(dest, 'patch.diff'), 'w') as f:
            f.write(diff)
        shutil.copy(demo, os.path.join(dest, 'demo.py'))
        if os.path.exists(notes):
            shutil.copy(notes, os.path.join(dest, 'notes.md'))
        meta = {
            'id': sid, 'property': prop, 'needs_to_manifest': needs, 'against_repo_head': head,
            'confirmed': {
                'baseline_tests_with_change': tests.stdout.strip().splitlines()[0],
                'demo_exit_with_change': dp.returncode, 'demo_exit_without_change': dc.returncode,
                'commands': ['tools/baseline.py <scratch worktree with patch applied>',
                             'PYTHONPATH=<scratch worktree> /venv/bin/python demo.py', 'PYTHONPATH=/repo /venv/bin/python demo.py'],
            },
            'origin': 'written by an independent sub-agent that saw only the property text and a scratch worktree; '
                      'patch re-based onto the current /repo HEAD where fix: commits had moved the context',
        }
        with open(os.path.join(dest, 'meta.json'), 'w') as f:
            json.dump(meta, f, indent=1)
        return 0
    finally:
        sh(['git', '-C', '/repo', 'worktree', 'remove', '--force', wt])
        shutil.rmtree(wt, ignore_errors=True)


if __name__ == '__main__':
    sys.exit(main())
